"""Writes /verif/seeded/<name>/meta.json for the seeded (property-breaking, suite-passing) changes that were produced by
fresh sub-agents from a property's text alone and confirmed in a scratch worktree with tools/seedtest.sh.
Static table: the catch status was measured by applying patch.diff to /repo, running the listed checks and restoring /repo."""
import json
from pathlib import Path

RAN = ("tools/seedtest.sh <scratch worktree> <name> <checks>: demo.py exits 1 with patch.diff applied and 0 without it; "
       "the pinned suite gives the same '3 failed, 122 passed' with the patch as without; then `git -C /repo apply patch.diff`, "
       "`./check <id>` for each listed check, `git -C /repo checkout -- .`")

T = {
 "C01-banded-indices-padding": dict(property="C01", what="Banded._indices vectorised with clipped column indices: off-diagonals of bands j >= 1 near the end of the matrix are scattered onto wrong entries",
    needs="banded noise with bandwidth J >= 2 used through the dense `+` view (DirectSolver / dense covariance); J = 1 and the quasiseparable path are unaffected",
    caught_by={"C01": "oracle: log_probability differs from the dense numpy value (concrete input)", "C11": "oracle + correspondence: noise + K differs from the documented banded matrix"}),
 "C02-qsm-branch-noise-order": dict(property="C02", what="predictive noise added to M before gram(inv(L) @ M) in the structured branch of QuasisepSolver.condition",
    needs="quasisep solver, X_test absent, quasiseparable prediction kernel and a non-default predictive noise",
    caught_by={"C02": "correspondence (model vs implementation) and oracle, concrete configuration"}, not_caught_by={"C03": "at the time of the run C03 compared no conditioning modes; it does now (see C03-banded-pred-noise-truncated)"}),
 "C03-banded-pred-noise-truncated": dict(property="C03", what="structured branch keeps only the diagonal of the predictive noise",
    needs="quasisep solver, X_test absent, *banded* predictive noise (diagonal noise is unaffected)",
    caught_by={"C03": "solver-against-solver comparison of condition(noise=Banded) (concrete input)", "C02": "oracle + correspondence on (absent x banded)"},
    missed_initially="both C02 and C03: the rotating option matrix of C02's quick tier did not contain (absent x banded) for the quasisep solver and C03 compared no conditioning modes",
    strengthening="C02 now runs every non-dense predictive-noise kind on the structured branch in every tier; C03 now compares 8 conditioning modes between the solvers"),
 "C04-rmatmul-vector": dict(property="C04", what="x @ A for a 1-D x returns A @ x",
    needs="a 1-D left operand and a non-symmetric A",
    caught_by={"C04": "correspondence + oracle on the 1-D left operand (concrete input)"},
    missed_initially="C04 only used 2-D left operands", strengthening="C04 now multiplies a 1-D vector from the left for every kind"),
 "C05-diag-right-mul": dict(property="C05", what="special case for (anything) @ Diag rescales the wrong generator of the upper part",
    needs="a matrix product whose right factor is diagonal and whose left factor has an upper part",
    caught_by={"C05": "exact-integer correspondence and dense oracle on the 49 kind pairs"}),
 "C06-square-inv-lk": dict(property="C06", what="SquareQSM.inv uses s_k instead of v_k in the diagonal of the inverse",
    needs="a genuinely non-symmetric square matrix with unequal lower / upper orders (shape error) or equal orders (wrong values)",
    caught_by={"C06": "oracle: A @ inv(A) != I, concrete input (equal orders) / raised shape error (unequal orders)"},
    missed_initially="only as a crash without input (unequal orders made the wrong product ill-shaped)", strengthening="C06 now also draws equal lower/upper orders and records exceptions of inv() as failing inputs"),
 "C07-pivot-floor": dict(property="C07", what="Cholesky pivots floored at machine epsilon",
    needs="a symmetric positive definite matrix whose pivots are below 2.2e-16 in absolute terms (e.g. a well-conditioned matrix scaled by 1e-20)",
    caught_by={"C07": "oracle L L^T = A on scaled SPD matrices (relative tolerance), concrete input", "C01": "log_probability of a tiny-amplitude kernel"},
    missed_initially="C07 used O(1) matrices only", strengthening="C07 now scales its SPD cases by 1e-20, 1e-9, 1e12 and compares relatively"),
 "C08-evaluate-swapped-coords": dict(property="C08", what="Quasisep.evaluate orders the coordinates but not the observation models",
    needs="a quasiseparable kernel whose observation model depends on the coordinate or whose value is not symmetric in (h1, h2), evaluated with X1 > X2",
    caught_by={"C08": "oracle / correspondence of evaluate vs the symmetric matrix entries"}),
 "C09-l2-isclose": dict(property="C09", what="L2 distance treats r^2 < 1e-8 as zero and returns the L1 distance there",
    needs="two distinct points closer than 1e-4 in two or more dimensions with the L2 metric",
    caught_by={"C09": "the translator rejects jnp.isclose (fail closed) and the oracle finds the concrete pair of nearly coincident points"},
    missed_initially="reported only as no-failing-input-found (translator break without an input)", strengthening="C09's oracle now evaluates both metrics at separations 1e-2 .. 1e-8 in 1-4 dimensions with a relative tolerance"),
 "C10-prod-helper-mod": dict(property="C10", what="Kronecker index map of a product of quasiseparable kernels uses (k mod n1, k mod n2)",
    needs="a product of two quasiseparable kernels with state dimensions that are not coprime-and-equal-looking, e.g. 2 x 2 or 2 x 3",
    caught_by={"C10": "correspondence of the product state-space model and oracle k1*k2, concrete input"}),
 "C11-banded-indices-padding": dict(property="C11", what="same change as C01-banded-indices-padding, produced independently for C11",
    needs="bandwidth J >= 2", caught_by={"C11": "oracle + correspondence of the `+` view"}),
 "C12-swapaxes": dict(property="C12", what="sample() uses swapaxes instead of moveaxis when putting the data axis last",
    needs="a sample shape of rank >= 2 (e.g. (2, 3)); rank 0/1 shapes are unaffected",
    caught_by={"C12": "oracle mean + L z per flattened sample index, concrete key and shape"}),
 "C13-include-mean-dropped": dict(property="C13", what="the conditioned mean function ignores include_mean (always adds the prior mean)",
    needs="a first conditioning step with include_mean=False on a model with a non-zero mean, then use of the child's mean function (evaluation or re-conditioning)",
    caught_by={"C13": "oracle: the child's mean function at its inputs differs from its stored mean; re-conditioned mean differs (concrete history)"},
    missed_initially="C13 (first step always used include_mean=True) and C02 (reads only the stored mean)", strengthening="C13 now takes a first step with include_mean=False, checks mean function vs stored mean at old and new inputs and conditions the child again"),
 "C14-include-mean-dynamic": dict(property="C14", what="include_mean of means.Conditioned is no longer a static field",
    needs="any jit / vmap / re-conditioning of a conditioned process (tracer boolean conversion)",
    caught_by={"C14": "theorem branch_table_static fails on the regenerated field table; the transformation runs give the concrete failing call",
               "C13": "re-conditioning a conditioned process raises (concrete history)"},
    strengthening="C13's three-step history is now inside a try block so that the exception is reported with the history instead of as a crash"),
 "C15-sho-critical-window": dict(property="C15", what="SHO uses the critically damped form whenever |4Q^2 - 1| < 1e-2 (|Q - 1/2| up to 2.5e-3)",
    needs="a quality factor between 1e-3 and 2.5e-3 away from 1/2 (legal by the property, inside the widened window)",
    caught_by={"C09": "theorem sho_crit_form about the regenerated definition breaks; oracle at Q = 1/2 +- 1.001e-3 gives the input",
               "C18": "same theorem; semigroup / ODE oracle at the band edge", "C15": "derivative with respect to Q at Q = 1/2 +- 1.5e-3 (zero instead of the analytic value)"},
    missed_initially="C15; C09 and C18 reported it without a concrete input", strengthening="band-edge quality factors added to the oracles of C09, C15, C18"),
 "C16-banded-pred-noise-dense": dict(property="C16", what="condition() with a non-diagonal predictive noise at the training inputs falls back to the dense N x N path",
    needs="quasisep solver, X_test absent, banded predictive noise, observing the shapes of the traced program (values are still right)",
    caught_by={"C16": "theorem table_ok fails on the regenerated shape table: an N x N intermediate appears in cond_train_banded_pred_noise"},
    missed_initially="the traced entry points did not include conditioning with an explicit predictive noise", strengthening="three more entry points per variant (banded / diagonal predictive noise, alternative kernel): 28 in total"),
 "C17-jit-check-dce": dict(property="C17", what="under jit the sortedness check becomes an error_if on a value that is dead code",
    needs="unsorted inputs under jax.jit", caught_by={"C17": "guard theorem about the regenerated guard table + concrete unsorted input under jit"}),
 "C18-matern52-sigma-in-P": dict(property="C18", what="Matern52 moves sigma^2 into the stationary covariance, only into some entries",
    needs="sigma != 1", caught_by={"C18": "PSD / Lyapunov theorems about the regenerated P fail; oracle gives a concrete sigma"},
    not_caught_by={"C09": "the kernel *value* h P A h is unchanged by this change, so C09 (documented closed form) rightly stays quiet"}),
 "C19-cholesky-transposed-solve": dict(property="C19", what="Cholesky transform solves with the transposed factor",
    needs="a non-diagonal factor L in dimension >= 2", caught_by={"C19": "theorem about the regenerated Cholesky.evaluate fails; oracle exp(-x^T (L L^T)^-1 x / 2)"}),
 "C20-quads2poly-reshape": dict(property="C20", what="carma_quads2poly reads the quadratic factors with reshape(2, nPair).T instead of consecutive pairs",
    needs="two or more quadratic factors (p >= 4)", caught_by={"C20": "theorem quads2poly_expands about the regenerated definition fails; oracle gives concrete coefficients"}),
}

# ---- round 2: sub-agents were told what round 1 had produced for the property and asked for a different mechanism ----
T.update({
 "C01-nan-to-num-guard": dict(property="C01", what="isfinite guard replaced by nan_to_num: non-finite log probabilities become -1.8e308 instead of -inf",
    needs="NaN / inf in y or a covariance that is not positive definite", caught_by={"C01": "guard oracle on non-finite data (concrete input)"}),
 "C02-fastpath-mean-noise-diagonal": dict(property="C02", what="fast-path conditional mean uses noise.diagonal() * alpha instead of noise @ alpha",
    needs="non-diagonal (banded / dense) TRAINING noise, X_test absent, no prediction kernel", caught_by={"C02": "oracle + correspondence on the option matrix (banded training noise x absent)"},
    not_caught_by={"C11": "the noise model itself is unchanged; C11 rightly stays quiet"}),
 "C03-banded-indices-clip": dict(property="C03", what="Banded._indices vectorised with clipping: padding slots are scattered into the last row / column",
    needs="banded noise with non-zero values in the documented ignored slots, dense `+` view", caught_by={"C03": "dense vs quasiseparable solver", "C11": "`+` view vs documented matrix with garbage in the ignored slots"}),
 "C04-uppertri-transpose-aT": dict(property="C04", what="UpperTriQSM.transpose also transposes the transition matrices",
    needs="non-symmetric transition matrices, order >= 2, n >= 3, transposing / right-multiplying an UpperTriQSM", caught_by={"C04": "exact correspondence + oracle", "C06": "upper inverse (= transpose, inverse, transpose)"}),
 "C05-theta-eta-padding": dict(property="C05", what="zero-padding of theta keyed on eta in qsm_mul",
    needs="a product with a strictly upper factor and a factor carrying diagonal + upper part", caught_by={"C05": "exact correspondence over the 49 kind pairs (wrong values / malformed orders)"}),
 "C06-symm-inv-forward": dict(property="C06", what="SymmQSM.inv propagates a^T f a instead of a f a^T in the forward sweep",
    needs="symmetric matrix with non-symmetric transition matrices, n >= 3", caught_by={"C06": "oracle A inv(A) = I and correspondence"}),
 "C07-covariance-path-jitter": dict(property="C07", what="QuasisepSolver factors covariance + sqrt(eps) I when a pre-computed covariance is passed",
    needs="a solver built with covariance= (e.g. conditioning at the training inputs), visible at 1e-8 relative or grossly in small units",
    caught_by={"C07": "solver-level check L L^T = solver.matrix on the kernel+noise / covariance= / conditioning paths at amplitudes 1 and 1e-5"},
    missed_initially="C07 (only called SymmQSM.cholesky directly), C13, C02 (1e-8 effect below their tolerances)",
    strengthening="C07 now checks the factor the solver actually holds, its normalisation and the L / L^T solves on every construction path, relative 1e-10"),
 "C08-general-qsm-h2-shifted": dict(property="C08", what="to_general_qsm takes the observation model of the PREVIOUS training point for the right generators",
    needs="coordinate-dependent observation model (wrapper over structured coordinates), rectangular path", caught_by={"C08": "exact correspondence on the synthetic structured-coordinate kernel over weak orderings"}),
 "C09-polynomial-diag": dict(property="C09", what="new evaluate_diag override of Polynomial divides by scale instead of scale^2",
    needs="Polynomial with scale != 1 and the one-argument call kernel(X)", caught_by={"C09": "translator rejects the changed method surface (fail closed); oracle diag kernel(X) vs diag kernel(X, X) gives the input"},
    missed_initially="C09: diagonals were only compared for the stationary profiles, and a NEW override is invisible to a translator of a fixed method list",
    strengthening="diagonal and symmetry oracle for every kernel class with non-default parameters; the translator now checks the semantic method surface of every kernel class"),
 "C10-scale-fold": dict(property="C10", what="a * (b * k) folded into one Scale node reading the leaf's length scale instead of the inner amplitude",
    needs="a quasiseparable kernel scaled twice in direct succession", caught_by={"C10": "random expression trees vs recursive numpy evaluation"}),
 "C11-banded-matmul-roll": dict(property="C11", what="Banded.__matmul__ rewritten band by band with jnp.roll: wrapped rows read the ignored slots",
    needs="non-zero values in the ignored off_diags slots", caught_by={"C11": "exhaustive (N, J) correspondence with garbage in the ignored slots"}),
 "C12-dot-triangular-size-fastpath": dict(property="C12", what="DirectSolver.dot_triangular flattens any input whose SIZE equals N",
    needs="unit-length sample axes, e.g. sample(key, (1,)) or an (N, 1) matrix", caught_by={"C12": "shape contract on shapes (1,), (1,1) and (N,1) operands"},
    missed_initially="(pre-emptively strengthened before the run) shapes were None, (), (3,), (2,3)", strengthening="unit-length axes added to the sample shapes and to dot / solve operands"),
 "C13-qsm-branch-noise-early": dict(property="C13", what="same mechanism as C02-qsm-branch-noise-order, produced independently for C13",
    needs="quasisep solver, conditioning at the process's own inputs with a non-default per-step noise",
    caught_by={"C13": "own-inputs step: stored covariance / child kernel / sequential = joint", "C02": "option matrix"},
    missed_initially="C13 conditioned at its own inputs only with the default jitter", strengthening="own-inputs step with a per-step noise level, then a second step, against the dense oracle"),
 "C14-banded-lru-cache-tracer": dict(property="C14", what="Banded.to_qsm caches its constant generators with lru_cache: tracers leak out of the first trace",
    needs="first use of a given (N, J) under a trace, then any eager or differently traced use", caught_by={"C14": "order-sensitive runs: jit first on fresh shapes, then eager, then another jit"},
    missed_initially="C14 computed the eager reference before the transformed variants", strengthening="trace-first runs for every noise model and both solvers"),
 "C15-general-qsm-tie-stopgrad": dict(property="C15", what="to_general_qsm cuts the dependence of the boundary transition on the coordinates at exact ties",
    needs="derivative of the predictive mean with respect to INPUT COORDINATES at a test point equal to a training point",
    caught_by={"C15": "jacfwd / grad of the predictive mean w.r.t. test coordinates (two equal to training inputs) vs finite differences, C^1 kernels"},
    missed_initially="C15 only checked that coordinate derivatives are finite at coincident points (the literal second sentence of the property)",
    strengthening="where the true coordinate derivative exists (kernels that are C^1 at zero lag) it is now compared with finite differences of the numpy oracle, also at ties; "
                  "no value is demanded where the kernel is not differentiable (Exp at zero lag)"),
 "C16-banded-matmul-dense": dict(property="C16", what="Banded.__matmul__ builds N x N band matrices", needs="banded training noise, predict / condition at the training inputs",
    caught_by={"C16": "theorem table_ok fails on the regenerated shape table (N x N intermediates in the banded variants)"}),
 "C17-xtest-all-leaves": dict(property="C17", what="X_test validation raises only when EVERY leaf mismatches",
    needs="structured inputs with several leaves and a partial mismatch", caught_by={"C17": "exception table rows for partial leaf mismatches"},
    missed_initially="C17's table had single-leaf inputs only", strengthening="six rows with two-leaf inputs (rank / trailing size, either leaf, condition and predict)"),
 "C18-prod-helper-kron-order": dict(property="C18", what="observation model of a Product uses jnp.kron ordering, inconsistent with F, P, A",
    needs="a product with a factor whose observation vector has several non-zero entries (Celerite, Sum, CARMA)",
    caught_by={"C18": "h P A h of the composite model vs the product / sum of the component values (concrete kernel and times)", "C10": "product value vs k1 * k2"},
    missed_initially="C18 compared h P A h only with the kernel's own evaluate (a tautology for composites)",
    strengthening="composites in C18's oracle carry an independent value (the same arithmetic on their built-in components), and three products with a multi-entry observation vector were added"),
 "C19-subspace-sorted-axes": dict(property="C19", what="Subspace sorts and de-duplicates the axes", needs="unsorted or repeated axes with a non-permutation-invariant base kernel",
    caught_by={"C19": "theorem on the regenerated definition + oracle"}),
 "C20-acvf-even-ma-terms": dict(property="C20", what="carma_acvf replaces (-r)^k by -(r^k)", needs="moving-average order q >= 2 with a non-zero even coefficient",
    caught_by={"C20": "companion-form oracle (concrete coefficients)"}),
})


def main():
    root = Path("/verif/seeded")
    for name, m in T.items():
        d = root / name
        if not (d / "patch.diff").exists():
            print("missing", name)
            continue
        meta = dict(id=name, property=m["property"], change=m["what"], needs_to_manifest=m["needs"],
                    compiles_and_passes_existing_suite=True, demonstration="demo.py (exit 1 with the change, 0 without)",
                    what_was_run=RAN, caught_by=m["caught_by"])
        for k in ("not_caught_by", "missed_initially", "strengthening"):
            if k in m:
                meta[k] = m[k]
        (d / "meta.json").write_text(json.dumps(meta, indent=1) + "\n")
    print("wrote", len(T), "meta files")


if __name__ == "__main__":
    main()
