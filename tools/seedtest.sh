#!/bin/bash
# usage: seedtest.sh <seed-dir> <name> <check ids...>
# Confirms a seeded change (demo fails with it / passes without, suite unchanged) in its scratch worktree,
# then applies it to /repo, runs the named checks, and always restores /repo.
d=$1; name=$2; shift 2
set -u
cd $d || exit 2
export PYTHONPATH=$d/src JAX_ENABLE_X64=1 JAX_PLATFORMS=cpu
git diff -- src > $(dirname $d)/_cur.diff
if [ ! -s patch.diff ]; then echo "no patch.diff"; exit 2; fi
# make sure the tree holds exactly patch.diff
git checkout -q -- src && git apply patch.diff || { echo "patch does not apply"; exit 2; }
/venv/bin/python demo.py > $(dirname $d)/_demo_with.log 2>&1; with=$?
git apply -R patch.diff
/venv/bin/python demo.py > $(dirname $d)/_demo_without.log 2>&1; without=$?
git apply patch.diff
echo "demo with change: exit $with ; without: exit $without"
suite=$(/venv/bin/python -m pytest -q -p no:cacheprovider -n 8 --timeout=900 tests 2>&1 | tail -1)
echo "suite with change: $suite"
mkdir -p /verif/seeded/$name
cp patch.diff /verif/seeded/$name/patch.diff; cp demo.py /verif/seeded/$name/demo.py
res=""
git -C /repo apply $d/patch.diff || { echo "cannot apply to /repo"; exit 2; }
for c in "$@"; do
  out=$(cd /verif && ./check $c 2>&1 | grep -E "^VIOLATION|^KNOWN|^\[C" | cut -c1-220)
  echo "$out"
  res="$res$c: $(echo "$out" | grep -c '^VIOLATION') violation line(s); "
done
git -C /repo checkout -- .
git -C /repo status --short
echo "RESULT $name: demo_with=$with demo_without=$without suite='$suite' checks: $res"
