#!/bin/bash
# Builds the whole Coq development from files on disk (offline). Full .vo build, no -vos/-vok.
set -e
cd /verif/coq
export PYTHONHASHSEED=0 PYTHONPATH=/repo/src:/verif/tools JAX_ENABLE_X64=1 JAX_PLATFORMS=cpu
if [ -x /verif/tools/regen.sh ]; then /verif/tools/regen.sh; fi
coq_makefile -f _CoqProject -o Makefile > /dev/null
timeout 3000 make -j16 2>&1 | tail -20
